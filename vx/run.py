"""Run Verus on an assembled unit, map diagnostics to obligation labels,
classify (pass / violation / undecided) and write evidence."""
import os
import re
import sys
import json
import time
import shutil
import subprocess
import importlib.util
import hashlib
import copy
from concurrent.futures import ThreadPoolExecutor

from .assemble import assemble, ROOT, REPO, Fn, Type, Raw, Clause, Loop
from .extract import LostAnchor, Unsupported
from .lexer import LexError

VERIFY_FAIL = [
    ('post', re.compile(r'postcondition not satisfied|unable to prove post-?condition of closure')),
    ('pre', re.compile(r'precondition not satisfied')),
    ('inv', re.compile(r'invariant not satisfied')),
    ('assert', re.compile(r'assertion failed|assertion might not hold|unreachable')),
    ('overflow', re.compile(r'possible arithmetic underflow/overflow|possible overflow|arithmetic overflow')),
    ('divzero', re.compile(r'possible division by zero')),
    ('decreases', re.compile(r'decreases not satisfied|could not prove termination|decreases clause')),
    ('bitvec', re.compile(r'bit.?vector')),
    ('returns', re.compile(r'return(s)? clause|cannot show .* returns')),
]
RLIMIT = re.compile(r'[Rr]esource limit|rlimit|timed out|timeout')
SAFETY_KINDS = ('overflow', 'divzero', 'pre-std', 'assert-body')


_SCRATCH = None


def scratch_dir():
    """A private scratch directory per check process (two checks may run at the same time and share units);
    removed at exit.  The last generated file of each unit is also left in .work/<unit>.rs for inspection."""
    global _SCRATCH
    base = os.environ.get('VERIF_SCRATCH') or os.path.join(ROOT, '.work')
    os.makedirs(base, exist_ok=True)
    if _SCRATCH is None:
        import atexit, tempfile
        _SCRATCH = tempfile.mkdtemp(prefix=f'p{os.getpid()}_', dir=base)
        if os.environ.get('VERIF_KEEP_WORK') != '1':
            atexit.register(lambda d=_SCRATCH: shutil.rmtree(d, ignore_errors=True))
    return _SCRATCH


def _publish(gen):
    """best effort: copy the generated file to .work/<name>.rs (atomic rename), for inspection after the run"""
    try:
        base = os.path.dirname(os.path.dirname(gen))
        tmp = os.path.join(os.path.dirname(gen), os.path.basename(gen) + '.pub')
        shutil.copyfile(gen, tmp)
        os.replace(tmp, os.path.join(base, os.path.basename(gen)))
        return os.path.join(base, os.path.basename(gen))
    except Exception:
        return gen


def load_unit(name):
    d = os.path.join(ROOT, 'units', name)
    p = os.path.join(d, 'unit.py')
    spec = importlib.util.spec_from_file_location(f'vxunit_{name}', p)
    m = importlib.util.module_from_spec(spec)
    m.DIR = d
    m.NAME = name
    sys.modules[spec.name] = m
    spec.loader.exec_module(m)
    return m


def all_units():
    d = os.path.join(ROOT, 'units')
    return sorted(n for n in os.listdir(d) if os.path.exists(os.path.join(d, n, 'unit.py')))


class Failure:
    def __init__(self, label, kind, item, message, rendered, line):
        self.label, self.kind, self.item, self.message, self.rendered, self.line = label, kind, item, message, rendered, line

    def as_dict(self):
        return {'label': self.label, 'kind': self.kind, 'item': self.item, 'message': self.message, 'line': self.line}


class UnitResult:
    def __init__(self, name):
        self.name = name
        self.status = 'ok'          # ok | fail | undecided
        self.reason = ''
        self.failures = []
        self.obligations = []       # list of (label, props)
        self.items = []
        self.rewrites = []
        self.dropped = []
        self.verified = 0
        self.errors = 0
        self.solver_ms = {}
        self.rlimit = {}
        self.wall_s = 0.0
        self.cmd = ''
        self.trusted = []
        self.gen_path = ''
        self.stderr = ''
        self.canaries = []
        self.total_smt_ms = 0
        self.watch = {}


def _obligation_labels(unit, A):
    """The labelled obligations of a unit (static list from the sidecar)."""
    obs = []
    uprops = list(getattr(unit, 'PROPERTIES', []))
    for it in unit.ITEMS:
        if it.kind == 'fn' and getattr(it, 'assumed_here', False):
            continue   # contract imported from the unit that proves it (listed in the unit's ASSUMPTIONS); no obligation here
        if it.kind == 'fn':
            props = it.props or uprops
            for c in it.ensures:
                obs.append((f'{it.name}.post.{c.label}', c.props or props))
            if it.returns:
                obs.append((f'{it.name}.post.returns', props))
            for n, lp in sorted(it.loops.items()):
                for c in lp.invariant + lp.invariant_except_break:
                    obs.append((f'{it.name}.loop{n}.inv.{c.label}', c.props or props))
                for c in lp.ensures:
                    obs.append((f'{it.name}.loop{n}.ensures.{c.label}', c.props or props))
                if lp.decreases:
                    obs.append((f'{it.name}.loop{n}.decreases', props))
            if it.decreases:
                obs.append((f'{it.name}.decreases', props))
            # implicit: callee preconditions, overflow, panics in the body
            obs.append((f'{it.name}.safety', sorted(set(props) | {'C20'})))
            if it.proof_start or it.proof_tail or it.hints or any(lp.proof_end or lp.proof_start or lp.proof_before for lp in it.loops.values()):
                obs.append((f'{it.name}.hints', props))
        elif it.kind == 'raw':
            text = it.text
            if text is None:
                with open(os.path.join(unit.DIR, it.file)) as fh:
                    text = fh.read()
            for m in re.finditer(r'^\s*(?:pub\s+)?(?:broadcast\s+)?proof\s+fn\s+(\w+)', text, re.M):
                # axioms are not obligations
                obs.append((f'lemma.{m.group(1)}', uprops))
            for m in re.finditer(r'^\s*(?:pub\s+)?fn\s+(witness_\w+)', text, re.M):
                obs.append((f'witness.{m.group(1)}', uprops))
    return obs


def _trusted_scan(text):
    """Mechanical scan for assumptions in the generated file."""
    out = []
    lines = text.split('\n')
    for i, l in enumerate(lines):
        s = l.strip()
        if s.startswith('//'):
            continue
        if re.search(r'\bassume\s*\(|\badmit\s*\(', s):
            out.append(('assume', i + 1, s[:160]))
        if 'external_body' in s or 'verifier::external' in s:
            # name the declaration that follows
            nxt = ''
            for k in range(i, min(i + 6, len(lines))):
                m = re.search(r'\b(fn|struct|enum|type)\s+(\w+)', lines[k])
                if m:
                    nxt = m.group(1) + ' ' + m.group(2)
                    break
            out.append(('external_body', i + 1, nxt))
        m = re.search(r'assume_specification\s*(?:<[^\[]*>)?\s*\[\s*([^\]]+)\]', s)
        if m:
            out.append(('assume_specification', i + 1, m.group(1).strip()))
        m = re.search(r'\baxiom\s+fn\s+(\w+)', s)
        if m:
            out.append(('axiom', i + 1, m.group(1)))
        if re.search(r'exec_allows_no_decreases_clause', s):
            out.append(('no_termination', i + 1, 'exec_allows_no_decreases_clause'))
    return out


def _enclosing_fn(lines, line):
    for k in range(min(line, len(lines)) - 1, -1, -1):
        m = re.search(r'\bfn\s+(\w+)', lines[k])
        if m and not lines[k].strip().startswith('//'):
            return m.group(1)
    return '?'


def run_verus(path, rlimit, extra=()):
    cmd = ['verus', path, '--error-format=json', '--output-json', '--time', '--triggers-mode', 'silent',
           '--rlimit', str(rlimit), '--num-threads', str(min(16, os.cpu_count() or 4))] + list(extra)
    t0 = time.time()
    env = dict(os.environ)
    try:
        p = subprocess.run(cmd, capture_output=True, text=True, timeout=int(os.environ.get('VERIF_VERUS_TIMEOUT', '3000')), cwd=os.path.dirname(path), env=env)
        out, err, rc = p.stdout, p.stderr, p.returncode
    except subprocess.TimeoutExpired as e:
        out, err, rc = (e.stdout or b'').decode() if isinstance(e.stdout, bytes) else (e.stdout or ''), 'timeout', 124
    return ' '.join(cmd), out, err, rc, time.time() - t0


def parse_diags(err):
    diags = []
    other = []
    for line in err.split('\n'):
        line = line.strip()
        if not line:
            continue
        if line.startswith('{'):
            try:
                d = json.loads(line)
            except Exception:
                other.append(line)
                continue
            if d.get('$message_type') == 'diagnostic' or 'message' in d:
                diags.append(d)
        else:
            other.append(line)
    return diags, other


def run_unit(name, tier='quick', variant=None, keep=True):
    """Assemble + verify one unit.  variant: optional function (unit module ->
    None) mutating the sidecar (used for canaries)."""
    R = UnitResult(name)
    t0 = time.time()
    try:
        unit = load_unit(name)
        if variant:
            variant(unit)
        A = assemble(unit)
        # WATCH: functions the unit only ASSUMES a contract for (reviewed text): their fingerprints are part of the registration
        R.watch = {}
        from .assemble import source as _src, fingerprint as _fp, DEFAULT_FEATURES as _DF
        for (wf, wpath) in list(getattr(unit, 'WATCH', [])) + list(getattr(unit, 'UNCOVERED', [])):
            sf = _src(wf)
            first, last = sf.find(wpath, getattr(unit, 'FEATURES', _DF))
            R.watch[f'{wf}:{wpath}'] = _fp(sf.item_tokens(first, last))
    except (LostAnchor, Unsupported, LexError) as e:
        R.status, R.reason = 'undecided', f'lost-anchor: {e}'
        R.wall_s = time.time() - t0
        return R
    except FileNotFoundError as e:
        R.status, R.reason = 'undecided', f'lost-anchor: missing file {e.filename}'
        R.wall_s = time.time() - t0
        return R
    R.items, R.rewrites, R.dropped = A.items, A.rewrites, A.dropped
    R.obligations = _obligation_labels(unit, A)
    sd = scratch_dir()
    gen = os.path.join(sd, f'{name}{"__" + variant.__name__ if variant else ""}.rs')
    with open(gen, 'w') as f:
        f.write(A.text)
    R.gen_path = _publish(gen)
    R.trusted = _trusted_scan(A.text)
    # assume/admit are only tolerated in stdmodel / prelude chunks
    for kind, ln, what in R.trusted:
        if kind == 'assume':
            tag = A.line_tags[ln - 1] or ''
            if not (tag.startswith('stdmodel') or tag.startswith('prelude')):
                R.status, R.reason = 'undecided', f'assume/admit outside the trusted base at generated line {ln}: {what}'
                return R
    rl = getattr(unit, 'RLIMIT', {}).get(tier, 40 if tier == 'quick' else 120)
    extra = list(getattr(unit, 'VERUS_ARGS', []))
    cmd, out, err, rc, wall = run_verus(gen, rl, extra)
    R.cmd, R.stderr = cmd, err
    diags, other = parse_diags(err)
    try:
        J = json.loads(out) if out.strip().startswith('{') else {}
    except Exception:
        J = {}
    vr = J.get('verification-results', {})
    R.verified, R.errors = vr.get('verified', 0), vr.get('errors', 0)
    try:
        for m in J['times-ms']['smt']['smt-run-module-times']:
            for fb in m.get('function-breakdown', []):
                R.solver_ms[fb['function']] = R.solver_ms.get(fb['function'], 0) + fb.get('time-micros', 0) / 1000.0
                R.rlimit[fb['function']] = fb.get('rlimit', 0)
        R.total_smt_ms = J['times-ms']['smt'].get('smt-run', 0)
    except Exception:
        pass
    lines = A.text.split('\n')
    genbase = os.path.basename(gen)
    tool_errors = []
    for d in diags:
        if d.get('level') != 'error':
            continue
        msg = d.get('message', '')
        if msg.startswith('aborting due to') or msg.startswith('could not compile'):
            continue
        kind = None
        for k, rx in VERIFY_FAIL:
            if rx.search(msg):
                kind = k
                break
        spans = d.get('spans', [])
        prim = next((s for s in spans if s.get('is_primary')), spans[0] if spans else None)
        if prim is not None and os.path.basename(prim.get('file_name', '')) != genbase:
            # failing clause lives in vstd (e.g. a trait-level postcondition): locate by the in-file span
            prim = next((s for s in spans if os.path.basename(s.get('file_name', '')) == genbase), prim)
        if kind is None:
            if RLIMIT.search(msg):
                tool_errors.append(('rlimit', msg, d.get('rendered', '')))
            else:
                tool_errors.append(('tool', msg, d.get('rendered', '')))
            continue
        # locate
        def tag_of(s):
            if s is None or os.path.basename(s.get('file_name', '')) != genbase:
                return None, None
            ln = s['line_start']
            # multi-line spans: pick the most specific tag in the span
            best = None
            for l in range(s['line_start'], min(s['line_end'], s['line_start'] + 400) + 1):
                t = A.line_tags[l - 1] if l - 1 < len(A.line_tags) else None
                if t and (best is None or _spec_rank(t) > _spec_rank(best)):
                    best = t
            return best, ln
        ptag, pln = tag_of(prim)
        others = [s for s in spans if s is not prim]
        otags = [tag_of(s) for s in others]
        label, item = None, None
        k2 = kind
        if kind == 'post':
            # primary = failed clause; item from the clause tag
            t = ptag if ptag and '|ensures|' in ptag else next((t for t, _ in otags if t and '|ensures|' in t), ptag)
            if t and t.startswith('item|') and '|ensures|' in t:
                item = t.split('|')[1]
                label = item + '.post.' + t.split('|ensures|')[1]
            elif t and t.startswith('item|'):
                item = t.split('|')[1]
                label = f'{item}.hints' if '|proof|' in t else f'{item}.safety'   # closure postcondition inside body
            else:
                fn = _enclosing_fn(lines, pln or 1)
                label, item = f'lemma.{fn}', None
        elif kind == 'inv':
            t = ptag if ptag and '|invariant|' in ptag else next((t for t, _ in otags if t and '|invariant|' in t), ptag)
            if t and '|invariant|' in t:
                item = t.split('|')[1]
                lp = re.search(r'\|(loop\d+)\|invariant\|(.*)$', t)
                label = f'{item}.{lp.group(1)}.inv.{lp.group(2)}'
            else:
                fn = _enclosing_fn(lines, pln or 1)
                label = f'lemma.{fn}'
        else:
            # pre / assert / overflow / divzero / decreases: attributed to the enclosing item of the primary span
            t = ptag
            if t and t.startswith('item|'):
                item = t.split('|')[1]
                if kind == 'decreases':
                    lp = re.search(r'\|(loop\d+)\|', t)
                    label = f'{item}.{lp.group(1)}.decreases' if lp else f'{item}.decreases'
                elif '|proof|' in t:
                    label = f'{item}.hints'
                elif '|invariant|' in t or '|ensures|' in t or '|requires|' in t:
                    # a precondition/recommendation failing inside a contract clause
                    label = f'{item}.hints'
                else:
                    label = f'{item}.safety'
                    if kind == 'pre':
                        # whose precondition?  std (vstd / stdmodel) => panic-freedom; else functional
                        where = [tt for tt, _ in otags]
                        ext = any(os.path.basename(s.get('file_name', '')) != genbase for s in others)
                        std = ext or any(tt and tt.startswith('stdmodel') for tt in where)
                        k2 = 'pre-std' if std else 'pre-contract'
                    elif kind == 'assert':
                        k2 = 'assert-body'
            else:
                fn = _enclosing_fn(lines, pln or 1)
                label = f'lemma.{fn}'
                if fn.startswith('witness_'):
                    label = f'witness.{fn}'
        R.failures.append(Failure(label, k2, item, msg, d.get('rendered', ''), pln))
    # sanity: verus said errors but we mapped none
    if tool_errors and {k for k, _, _ in tool_errors} == {'rlimit'} and R.failures:
        # a definite failure was reported before the solver ran out of resources looking for further ones
        # (--multiple-errors): the failures stand, the rlimit is recorded
        R.status = 'fail'
        R.reason = f'rlimit after {len(R.failures)} reported failure(s)'
        R.tool_errors = tool_errors
    elif tool_errors:
        kinds = {k for k, _, _ in tool_errors}
        R.status = 'undecided'
        R.reason = ('rlimit: ' if kinds == {'rlimit'} else 'tool-error: ') + '; '.join(m for _, m, _ in tool_errors[:3])
        R.tool_errors = tool_errors
    elif rc == 124:
        R.status, R.reason = 'undecided', 'verus timeout'
    elif R.failures:
        R.status = 'fail'
    elif rc != 0 or not vr.get('success', False):
        R.status, R.reason = 'undecided', f'verus exit {rc} without a mapped verification failure: ' + ' | '.join(other[:3])
    elif R.verified <= 0:
        R.status, R.reason = 'undecided', 'verus verified 0 functions (vacuous)'
    # every extracted fn must appear in verus's per-function breakdown
    if R.status == 'ok':
        names = set(k.split('::')[-1] for k in R.solver_ms)
        for it in A.items:
            if it['kind'] == 'fn' and it.get('assumed_here'):
                continue
            if it['kind'] == 'fn' and it['name'].split('.')[-1] not in names and it['name'] not in names:
                fnname = re.sub(r'.*\bfn\s+', '', re.split(r'\s>\s', it['path'])[-1]).strip()
                if fnname not in names and it.get('emitted') not in names:
                    R.status, R.reason = 'undecided', f'function {it["name"]} produced no verification query (vacuous)'
    R.wall_s = time.time() - t0
    return R


def _spec_rank(tag):
    if tag is None:
        return 0
    if '|ensures|' in tag or '|invariant|' in tag or '|requires|' in tag or '|decreases' in tag:
        return 3
    if '|proof|' in tag:
        return 2
    return 1


# -- registry -----------------------------------------------------------------
def registry_path(name):
    return os.path.join(ROOT, 'units', name, 'registry.json')


def load_registry(name):
    p = registry_path(name)
    if not os.path.exists(p):
        return None
    with open(p) as f:
        return json.load(f)


def register(name):
    R = run_unit(name, 'thorough')
    if R.status == 'undecided':
        print(f'cannot register {name}: {R.reason}')
        return 2
    failed = {f.label for f in R.failures}
    kf = known_findings()
    reg = {
        'unit': name,
        'repo_head': subprocess.run(['git', '-C', REPO, 'rev-parse', 'HEAD'], capture_output=True, text=True).stdout.strip(),
        'verified': R.verified,
        'obligations': {},
        'fingerprints': {it['name']: it['fingerprint'] for it in R.items},
        'watch': getattr(R, 'watch', {}),
    }
    for label, props in R.obligations:
        if label in failed:
            fk = [k for k in kf['finding'] if k['obligation'] == f'{name}:{label}']
            if not fk:
                print(f'cannot register {name}: obligation {label} fails and is not a listed finding')
                for f in R.failures:
                    print(f.rendered)
                return 1
            reg['obligations'][label] = 'known-fail'
        else:
            reg['obligations'][label] = 'pass'
    unknown = failed - {l for l, _ in R.obligations}
    if unknown:
        print(f'cannot register {name}: failures map to unknown labels {unknown}')
        for f in R.failures:
            print(f.rendered)
        return 1
    with open(registry_path(name), 'w') as f:
        json.dump(reg, f, indent=1, sort_keys=True)
        f.write('\n')
    print(f'registered {name}: {len(reg["obligations"])} obligations, {R.verified} verus-verified, {len(failed)} known-fail, wall {R.wall_s:.1f}s')
    return 0


def known_findings():
    p = os.path.join(ROOT, 'known_findings.txt')
    out = {'finding': [], 'fixed': []}
    if not os.path.exists(p):
        return out
    for line in open(p):
        line = line.strip()
        if not line or line.startswith('#'):
            continue
        m = re.match(r'finding:\s+property=(\S+)\s+obligation=(\S+)\s+(.*)$', line)
        if m:
            out['finding'].append({'property': m.group(1), 'obligation': m.group(2), 'what': m.group(3)})
            continue
        m = re.match(r'fixed:\s+property=(\S+)\s+(\S+)\s+(.*)$', line)
        if m:
            out['fixed'].append({'property': m.group(1), 'commit': m.group(2), 'what': m.group(3)})
    return out
