"""Property-level driver:  ./check <PID> [--tier quick|thorough]  |  ./check --replay <path>
                          ./check --register <unit>  |  ./check --unit <unit>  |  ./check --emit <unit>
Exit codes: 0 property held on everything explored (KNOWN-FINDING lines allowed),
            1 VIOLATION, 2 undecided (lost anchor / tool limit) -- never an alarm."""
import os
import re
import sys
import json
import time
import subprocess
from concurrent.futures import ThreadPoolExecutor

from . import run as vxrun
from .run import run_unit, load_unit, all_units, load_registry, known_findings, SAFETY_KINDS
from .assemble import ROOT, REPO

ASSUMPTIONS_COMMON = [
    'Verus 0.2026.09.13 / Z3 and rustc are trusted (encoding of Rust semantics, SMT solver).',
    'The verified text is the function text extracted from /repo on this run; extraction drops comments, doc comments and attributes, evaluates #[cfg] under the workspace feature set (ipaddr, decimal, datetime, partial-eval, tpe, tolerant-ast, extended-schema), makes items pub and applies the rewrite rules listed under coverage.rewrites; nothing else is changed.',
    'Callee functions not extracted in the unit are represented by external_body declarations with assumed contracts (listed in coverage.trusted_base).',
    'std / third-party collections are represented by the hand-written model in stdmodel/ (assumed contracts written from the std documentation); HashMap/HashSet iteration order is an arbitrary duplicate-free enumeration.',
    'Machine integers are exact in exec code (overflow is an obligation), mathematical in spec code.',
]


def units_for(pid):
    out = []
    for n in all_units():
        try:
            u = load_unit(n)
        except Exception as e:  # broken unit definition is our bug, surface it
            raise
        if getattr(u, 'DISABLED', False):
            continue
        props = set(getattr(u, 'PROPERTIES', []))
        if pid in props or (pid == 'C20' and getattr(u, 'SERVES_C20', True)):
            out.append(n)
    return out


def _unit_changed(R, reg):
    cur = {it['name']: it['fingerprint'] for it in R.items}
    return cur != reg.get('fingerprints', {}), [k for k in cur if reg.get('fingerprints', {}).get(k) != cur[k]]


def _props_of(R, label):
    for l, p in R.obligations:
        if l == label:
            return p
    return []


def write_replay(pid, R, f, reg, changed_items):
    d = os.path.join(ROOT, 'replays', pid)
    os.makedirs(d, exist_ok=True)
    safe = re.sub(r'[^A-Za-z0-9_.-]', '_', f'{R.name}-{f.label}')
    path = os.path.join(d, safe + '.json')
    gen_copy = os.path.join(d, safe + '.rs')
    try:
        with open(R.gen_path) as src, open(gen_copy, 'w') as dst:
            dst.write(src.read())
    except Exception:
        gen_copy = R.gen_path
    item = next((it for it in R.items if it['name'] == f.item), None)
    diffs = {}
    files = sorted({it['file'] for it in R.items if it['name'] in changed_items} | ({item['file']} if item else set()))
    for fl in files:
        try:
            diffs[fl] = subprocess.run(['git', '-C', REPO, 'diff', 'HEAD', '--', fl], capture_output=True, text=True, timeout=60).stdout[-20000:]
        except Exception as e:
            diffs[fl] = f'<git diff failed: {e}>'
    doc = {
        'property': pid, 'unit': R.name, 'obligation': f.label, 'kind': f.kind, 'message': f.message,
        'function': item, 'changed_items_since_registration': changed_items,
        'registered_repo_head': reg.get('repo_head') if reg else None,
        'failing_input': None,
        'note': 'Verus produces no counterexample: no-failing-input-found. The obligation below was discharged on the registered tree and fails on the current text of the function.',
        'verifier_output': f.rendered, 'generated_file': gen_copy, 'checker_cmd': R.cmd,
        'repo_diff': diffs,
        'replay_cmd': f'./check --replay {path}',
    }
    with open(path, 'w') as fh:
        json.dump(doc, fh, indent=1)
    return path


def check_property(pid, tier='quick', seed=0, out=sys.stdout, quiet_summary=False):
    t0 = time.time()
    names = units_for(pid)
    if not names:
        print(f'UNDECIDED property={pid} reason=no units', file=out)
        return 2
    par = int(os.environ.get('VERIF_PAR', '4'))
    with ThreadPoolExecutor(max_workers=par) as ex:
        results = list(ex.map(lambda n: run_unit(n, tier), names))
    kf = known_findings()
    violations, known, undecided = [], [], []
    obligations, discharged = 0, 0
    samples, fns, trusted, rewrites, dropped, solver = [], [], [], [], [], {}
    canaries = []
    for R in results:
        reg = load_registry(R.name)
        unit = load_unit(R.name)
        if R.status == 'undecided':
            undecided.append((R.name, R.reason))
            continue
        if reg is None:
            undecided.append((R.name, 'unit not registered'))
            continue
        changed, changed_items = _unit_changed(R, reg)
        wchanged = sorted(k for k in set(R.watch) | set(reg.get('watch', {})) if R.watch.get(k) != reg.get('watch', {}).get(k))
        if wchanged:
            # the unit relies on an ASSUMED contract for these functions; the assumption was made for the text that was reviewed
            unc = {f'{a}:{b}' for (a, b) in getattr(unit, 'UNCOVERED', [])}
            w1 = [k for k in wchanged if k not in unc]; w2 = [k for k in wchanged if k in unc]
            msg = []
            if w1:
                msg.append('a function whose contract is only assumed has changed since registration (its assumed contract is no longer backed by review): ' + ', '.join(w1))
            if w2:
                msg.append('a function that belongs to the mechanism of the property but is outside every contract has changed since registration; the check cannot decide the property for the changed text: ' + ', '.join(w2))
            undecided.append((R.name, '; '.join(msg)))
            continue
        # obligations relevant to this property
        rel = []
        for label, props in R.obligations:
            if pid == 'C20':
                if label.endswith('.safety'):
                    rel.append(label)
            elif pid in props:
                rel.append(label)
        if set(l for l, _ in R.obligations) != set(reg['obligations']):
            undecided.append((R.name, 'obligation set differs from the registered one (re-register the unit)'))
            continue
        failed_by_label = {}
        for f in R.failures:
            failed_by_label.setdefault(f.label, []).append(f)
        # C20: a function's safety obligation counts only if its failures are exclusively safety kinds
        nonsafety_items = {f.item for f in R.failures if f.kind not in SAFETY_KINDS}
        for label in rel:
            obligations += 1
            fs = failed_by_label.get(label)
            if not fs:
                discharged += 1
                continue
            if pid == 'C20':
                fs = [f for f in fs if f.kind in SAFETY_KINDS and f.item not in nonsafety_items]
                if not fs:
                    discharged += 1   # reported under the functional property instead
                    continue
            status = reg['obligations'].get(label, 'pass')
            listed = [k for k in kf['finding'] if k['obligation'] == f'{R.name}:{label}']
            if status == 'known-fail' and listed:
                known.append((R.name, label, listed[0]['what']))
                continue
            if not changed:
                undecided.append((R.name, f'obligation {label} failed but no function under contract changed since registration (solver instability or framework defect): {fs[0].message}'))
                continue
            path = write_replay(pid, R, fs[0], reg, changed_items)
            violations.append((R.name, label, path, fs[0]))
        # failures that map to labels outside the unit's obligation list are framework defects
        for l in failed_by_label:
            if l not in reg['obligations']:
                undecided.append((R.name, f'failure mapped to unknown obligation {l}: {failed_by_label[l][0].message}'))
        for it in R.items:
            if it['kind'] == 'fn':
                fns.append({'unit': R.name, 'file': it['file'], 'function': it['path'], 'lines': it['lines'], 'fingerprint': it['fingerprint']})
        for kind, ln, what in R.trusted:
            trusted.append(f'{R.name}: {kind}: {what}')
        rewrites.extend({'unit': R.name, **r} for r in R.rewrites)
        dropped.extend(f'{R.name}: {d}' for d in R.dropped)
        for k, v in R.solver_ms.items():
            solver[f'{R.name}:{k}'] = round(v, 1)
        # samples: a few clause texts
        for it in unit.ITEMS:
            if it.kind == 'fn' and len(samples) < 12:
                for c in it.ensures[:2]:
                    if pid == 'C20' or pid in (c.props or it.props or getattr(unit, 'PROPERTIES', [])):
                        samples.append({'obligation': f'{R.name}:{it.name}.post.{c.label}', 'function': it.path, 'clause': c.text[:400]})
    # canaries (vacuity guard): each must FAIL
    if os.environ.get('VERIF_NO_CANARY') != '1' and pid != 'C20':   # C20 re-uses the units of the other properties, whose own checks run the canaries
        for R in results:
            if R.status == 'undecided':
                continue
            unit = load_unit(R.name)
            for cn in getattr(unit, 'CANARIES', []):
                ok, why = run_canary(R.name, cn, tier)
                canaries.append({'unit': R.name, 'function': cn, 'failed_as_required': ok})
                if not ok:
                    undecided.append((R.name, f'canary on {cn} did not fail: {why}'))
    wall = time.time() - t0
    level = 'proof'
    ev = {
        'property_id': pid, 'tier': tier, 'seed': seed, 'level': level,
        'coverage': {
            'obligations': obligations, 'discharged': discharged,
            'checker_cmd': 'verus <generated unit file> --error-format=json --output-json --time --triggers-mode silent --rlimit N   (one file per unit, re-generated from /repo on this run; units: ' + ', '.join(names) + ')',
            'trusted_base': sorted(set(trusted)),
            'backend': 'verus 0.2026.09.13 / z3',
            'units': [{'unit': R.name, 'status': R.status, 'reason': R.reason, 'verus_verified': R.verified, 'verus_errors': R.errors,
                       'wall_s': round(R.wall_s, 2), 'smt_ms': R.total_smt_ms, 'obligation_labels': len(R.obligations)} for R in results],
            'functions_under_contract': fns,
            'rewrites': rewrites, 'dropped_by_extraction': dropped[:400],
            'solver_ms': solver,
            'samples': samples or [{'note': 'no labelled clause samples'}],
            'canaries': canaries,
            'bounded': [],
            'known_findings': [{'unit': u, 'obligation': l, 'what': w} for u, l, w in known],
            'undecided': [{'unit': u, 'reason': r} for u, r in undecided],
            'exhaustive': False,
            'explanation': 'Each obligation is a contract clause (postcondition / loop invariant / termination measure) or the implicit safety obligation (callee preconditions, arithmetic overflow, unreachable panics) of a function extracted verbatim from /repo, or a lemma of the hand-written specification; "discharged" counts those Verus proved on this run.',
        },
        'assumptions': ASSUMPTIONS_COMMON + getattr_units(names, 'ASSUMPTIONS'),
        'wall_s': round(wall, 2),
        'violations': len(violations),
    }
    os.makedirs(os.path.join(ROOT, 'evidence'), exist_ok=True)
    with open(os.path.join(ROOT, 'evidence', f'{pid}.json'), 'w') as fh:
        json.dump(ev, fh, indent=1)
        fh.write('\n')
    for u, l, w in known:
        print(f'KNOWN-FINDING: property={pid} {u}:{l} {w}', file=out)
    for u, l, path, f in violations:
        print(f'VIOLATION property={pid} replay={path} obligation={u}:{l} no-failing-input-found', file=out)
    for u, r in undecided:
        print(f'UNDECIDED property={pid} unit={u} reason={r}', file=out)
    print(f'property={pid} tier={tier} units={len(names)} obligations={obligations} discharged={discharged} known={len(known)} violations={len(violations)} undecided={len(undecided)} wall={wall:.1f}s', file=out)
    if violations:
        return 1
    if undecided:
        return 2
    return 0


def getattr_units(names, attr):
    out = []
    for n in names:
        u = load_unit(n)
        for a in getattr(u, attr, []):
            s = f'{n}: {a}'
            if s not in out:
                out.append(s)
        if attr == 'ASSUMPTIONS':
            w = [f'{f}:{p}' for f, p in getattr(u, 'WATCH', [])]
            if w:
                out.append(f'{n}: watched (contract ASSUMED, text fingerprinted at registration; a change makes this check answer undecided): ' + ', '.join(w))
            w = [f'{f}:{p}' for f, p in getattr(u, 'UNCOVERED', [])]
            if w:
                out.append(f'{n}: NOT under contract although part of the mechanism of the property (fingerprinted at registration; a change makes this check answer undecided): ' + ', '.join(w))
    return out


def run_canary(name, fn_name, tier):
    """Add `ensures false` to one function of the unit; verification of that
    function must fail (otherwise its preconditions are contradictory or the
    run is vacuous)."""
    from .assemble import Clause, Raw

    if fn_name.startswith('lemmas:'):
        # a file of deliberately false lemmas (e.g. unsound inference rules): every one of them must fail
        fname = fn_name.split(':', 1)[1]
        text = open(os.path.join(vxrun.ROOT, 'units', name, fname)).read()
        lemmas = re.findall(r'proof fn (\w+)', text)

        def variant_l(unit):
            unit.ITEMS.append(Raw(text=text, tag='spec'))
        variant_l.__name__ = 'canary_' + re.sub(r'\W', '_', fname)
        R = run_unit(name, tier, variant=variant_l)
        if R.status == 'undecided':
            return False, R.reason
        missing = [l for l in lemmas if not any(f.label == f'lemma.{l}' for f in R.failures)]
        other = [f.label for f in R.failures if not any(f.label == f'lemma.{l}' for l in lemmas)]
        if other:
            return False, 'unexpected failures in the canary run: ' + ', '.join(other[:3])
        return (not missing and bool(lemmas)), ('false lemma(s) were proved: ' + ', '.join(missing) if missing else '')

    def variant(unit):
        for it in unit.ITEMS:
            if it.kind == 'fn' and it.name == fn_name:
                it.ensures = list(it.ensures) + [Clause('canary', 'false')]
                return
        raise vxrun.LostAnchor(f'canary target {fn_name} not in unit')
    variant.__name__ = 'canary_' + re.sub(r'\W', '_', fn_name)
    R = run_unit(name, tier, variant=variant)
    if R.status == 'undecided':
        return False, R.reason
    hit = any(f.label == f'{fn_name}.post.canary' for f in R.failures)
    return hit, 'canary postcondition `false` was proved' if not hit else ''


def replay(path, out=sys.stdout):
    with open(path) as fh:
        doc = json.load(fh)
    if doc.get('engine') == 'kani':
        from .kani import run_kani_unit
        K = run_kani_unit(doc['unit'], 'thorough')
        h = doc['obligation'].split(':')[-1]
        if K['status'] == 'undecided':
            print(f'UNDECIDED unit={doc["unit"]} reason={K["reason"]}', file=out)
            return 2
        if K['harnesses'].get(h, {}).get('status') == 'fail':
            print(f'harness {doc["obligation"]} still fails: {K["harnesses"][h]["failed_checks"]}', file=out)
            print(f'VIOLATION property={doc["property"]} replay={path}', file=out)
            return 1
        print(f'harness {doc["obligation"]} verifies on the current tree', file=out)
        return 0
    R = run_unit(doc['unit'], 'thorough')
    if R.status == 'undecided':
        print(f'UNDECIDED unit={doc["unit"]} reason={R.reason}', file=out)
        return 2
    fs = [f for f in R.failures if f.label == doc['obligation']]
    if fs:
        print(f'obligation {doc["unit"]}:{doc["obligation"]} still fails on the current tree:', file=out)
        print(fs[0].rendered, file=out)
        print(f'VIOLATION property={doc["property"]} replay={path} no-failing-input-found', file=out)
        return 1
    print(f'obligation {doc["unit"]}:{doc["obligation"]} is discharged on the current tree', file=out)
    return 0


def main(argv):
    if not argv:
        print(__doc__)
        return 2
    tier = os.environ.get('VERIF_TIER', 'quick')
    seed = int(os.environ.get('VERIF_SEED', '0') or 0)
    if '--tier' in argv:
        i = argv.index('--tier')
        tier = argv[i + 1]
        argv = argv[:i] + argv[i + 2:]
    if argv[0] == '--replay':
        return replay(argv[1])
    if argv[0] == '--register':
        rc = 0
        for n in argv[1:] or all_units():
            rc |= vxrun.register(n)
        return rc
    if argv[0] == '--register-kani':
        from .kani import register_kani
        rc = 0
        for n in argv[1:]:
            rc |= register_kani(n)
        return rc
    if argv[0] == '--emit':
        from .assemble import assemble
        A = assemble(load_unit(argv[1]))
        sys.stdout.write(A.text)
        return 0
    if argv[0] == '--unit':
        R = run_unit(argv[1], tier)
        print(f'unit={R.name} status={R.status} reason={R.reason} verified={R.verified} errors={R.errors} wall={R.wall_s:.1f}s gen={R.gen_path}')
        for f in R.failures:
            print(f'--- {f.label} [{f.kind}] line {f.line}')
            print(f.rendered)
        if R.status == 'undecided' and hasattr(R, 'tool_errors'):
            for k, m, r in R.tool_errors[:8]:
                print(r)
        elif R.status == 'undecided':
            print(R.stderr[-3000:])
        if '--times' in argv:
            for k, v in sorted(R.solver_ms.items(), key=lambda kv: -kv[1])[:15]:
                print(f'  {v:9.1f} ms  rlimit={R.rlimit.get(k)}  {k}')
        return {'ok': 0, 'fail': 1, 'undecided': 2}[R.status]
    pid = argv[0]
    from .kani import kani_units_for, check_property_with_kani  # noqa
    return check_property_with_kani(pid, tier, seed)


if __name__ == '__main__':
    sys.exit(main(sys.argv[1:]))
