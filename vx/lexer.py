"""A small Rust lexer: enough to find items, match braces, strip comments and
fingerprint token streams.  No dependencies."""
import re
import hashlib

IDENT = re.compile(r'(?:r#)?[A-Za-z_][A-Za-z0-9_]*')
NUM = re.compile(r'[0-9][0-9A-Za-z_]*(?:\.[0-9][0-9A-Za-z_]*)?')
PUNCT3 = ('...', '..=')
PUNCT2 = ('::', '->', '=>', '==', '!=', '<=', '>=', '&&', '||', '+=', '-=', '*=', '/=',
          '%=', '^=', '&=', '|=', '..')


class Tok:
    __slots__ = ('kind', 'text', 'start', 'end')

    def __init__(self, kind, text, start, end):
        self.kind, self.text, self.start, self.end = kind, text, start, end

    def __repr__(self):
        return f'{self.kind}:{self.text!r}@{self.start}'


class LexError(Exception):
    pass


def lex(src):
    """Return list of Tok.  kinds: comment, doc, str, char, lifetime, ident, num, punct."""
    toks = []
    i, n = 0, len(src)
    while i < n:
        c = src[i]
        if c.isspace():
            i += 1
            continue
        if src.startswith('//', i):
            j = src.find('\n', i)
            if j < 0:
                j = n
            text = src[i:j]
            kind = 'doc' if (text.startswith('///') and not text.startswith('////')) or text.startswith('//!') else 'comment'
            toks.append(Tok(kind, text, i, j))
            i = j
            continue
        if src.startswith('/*', i):
            depth, j = 1, i + 2
            while j < n and depth:
                if src.startswith('/*', j):
                    depth += 1
                    j += 2
                elif src.startswith('*/', j):
                    depth -= 1
                    j += 2
                else:
                    j += 1
            text = src[i:j]
            kind = 'doc' if (text.startswith('/**') and not text.startswith('/***') and text != '/**/') or text.startswith('/*!') else 'comment'
            toks.append(Tok(kind, text, i, j))
            i = j
            continue
        # raw strings / byte strings
        m = re.match(r'(?:b|c)?r(#*)"', src[i:i + 40])
        if m:
            hashes = m.group(1)
            close = '"' + hashes
            j = src.find(close, i + m.end())
            if j < 0:
                raise LexError('unterminated raw string')
            j += len(close)
            toks.append(Tok('str', src[i:j], i, j))
            i = j
            continue
        if c == '"' or (c in 'bc' and i + 1 < n and src[i + 1] == '"'):
            j = i + (2 if c != '"' else 1)
            while j < n and src[j] != '"':
                if src[j] == '\\':
                    j += 1
                j += 1
            j += 1
            toks.append(Tok('str', src[i:j], i, j))
            i = j
            continue
        if c == "'" or (c == 'b' and i + 1 < n and src[i + 1] == "'"):
            k = i + (1 if c == 'b' else 0)
            m = re.match(r"'(?:\\(?:x[0-9a-fA-F]{2}|u\{[0-9a-fA-F_]+\}|.)|[^\\'])'", src[k:k + 16])
            if m:
                j = k + m.end()
                toks.append(Tok('char', src[i:j], i, j))
                i = j
                continue
            m = re.match(r"'[A-Za-z_][A-Za-z0-9_]*", src[k:k + 80])
            if m and c == "'":
                j = k + m.end()
                toks.append(Tok('lifetime', src[i:j], i, j))
                i = j
                continue
            raise LexError(f'bad quote at {i}: {src[i:i+20]!r}')
        m = IDENT.match(src, i)
        if m:
            toks.append(Tok('ident', m.group(0), i, m.end()))
            i = m.end()
            continue
        m = NUM.match(src, i)
        if m:
            # don't swallow `..` range after integer: "0..n"
            text = m.group(0)
            if '.' in text and src.startswith('..', i + text.index('.')):
                text = text[:text.index('.')]
            # tuple field access like `x.0.1` lexes fine as nums
            toks.append(Tok('num', text, i, i + len(text)))
            i += len(text)
            continue
        for p in PUNCT3:
            if src.startswith(p, i):
                toks.append(Tok('punct', p, i, i + 3))
                i += 3
                break
        else:
            for p in PUNCT2:
                if src.startswith(p, i):
                    toks.append(Tok('punct', p, i, i + 2))
                    i += 2
                    break
            else:
                toks.append(Tok('punct', c, i, i + 1))
                i += 1
    return toks


def code_tokens(toks):
    return [t for t in toks if t.kind not in ('comment', 'doc')]


OPEN = {'(': ')', '[': ']', '{': '}'}
CLOSE = {')', ']', '}'}


def match_close(toks, i):
    """toks[i] is an opening bracket; return index of its matching close."""
    depth = 0
    for j in range(i, len(toks)):
        t = toks[j]
        if t.kind == 'punct':
            if t.text in OPEN:
                depth += 1
            elif t.text in CLOSE:
                depth -= 1
                if depth == 0:
                    return j
    raise LexError('unbalanced brackets')


def fingerprint(toks):
    h = hashlib.sha256()
    for t in code_tokens(toks):
        h.update(t.text.encode())
        h.update(b'\x00')
    return h.hexdigest()[:16]


def render(src, toks):
    """Source text of a token range with comments/doc comments blanked out,
    whitespace (and so line structure) otherwise preserved."""
    if not toks:
        return ''
    out = []
    pos = toks[0].start
    for t in toks:
        out.append(src[pos:t.start])
        if t.kind in ('comment', 'doc'):
            # keep newlines so relative line structure is stable
            out.append('\n' * t.text.count('\n'))
        else:
            out.append(t.text)
        pos = t.end
    return ''.join(out)
