"""Kani units (bit-level, loop-free kernels).  Filled in by units/*/kani.py."""
from .check import check_property


def kani_units_for(pid):
    return []


def check_property_with_kani(pid, tier, seed):
    return check_property(pid, tier, seed)
