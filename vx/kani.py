"""Kani units: complete (loop-free, full-domain) proofs of bit-level kernels.  The harness module of a unit is
appended, under #[cfg(kani)], to a scratch copy of /repo (never to /repo itself); `cargo kani` then checks the real
functions.  On a failing harness the run is repeated with concrete playback and, where the unit has a replay
template, the counterexample is replayed against the real code through the public evaluator."""
import os
import re
import sys
import json
import time
import shutil
import subprocess
import importlib.util

from .assemble import ROOT, REPO, source
from .extract import LostAnchor, DEFAULT_FEATURES
from .lexer import fingerprint


def kani_unit_names():
    d = os.path.join(ROOT, 'units')
    return sorted(n for n in os.listdir(d) if os.path.exists(os.path.join(d, n, 'kani.py')))


def load_kani_unit(name):
    d = os.path.join(ROOT, 'units', name)
    spec = importlib.util.spec_from_file_location(f'vxkani_{name}', os.path.join(d, 'kani.py'))
    m = importlib.util.module_from_spec(spec)
    m.DIR, m.NAME = d, name
    spec.loader.exec_module(m)
    return m


def kani_units_for(pid):
    return [n for n in kani_unit_names() if pid in getattr(load_kani_unit(n), 'PROPERTIES', [])]


def scratch_root():
    return os.environ.get('VERIF_KANI_SCRATCH') or f'/var/tmp/cedar-verif-kani.{os.getpid()}'


def _fingerprints(unit):
    fps = {}
    for path in unit.FUNCTIONS:
        sf = source(unit.TARGET)
        first, last = sf.find(path, DEFAULT_FEATURES)
        fps[path] = fingerprint(sf.item_tokens(first, last))
    return fps


def run_kani_unit(name, tier):
    """Returns dict(status ok|fail|undecided, reason, harnesses{h: {status, checks, failed_checks, time_s, covers_sat}}, ...)"""
    t0 = time.time()
    R = {'unit': name, 'status': 'ok', 'reason': '', 'harnesses': {}, 'wall_s': 0.0, 'cmd': '', 'fingerprints': {}, 'scratch': None}
    try:
        unit = load_kani_unit(name)
        R['fingerprints'] = _fingerprints(unit)
    except (LostAnchor, FileNotFoundError) as e:
        R['status'], R['reason'] = 'undecided', f'lost-anchor: {e}'
        return R
    hs = [h for h, d in unit.HARNESSES.items() if tier == 'thorough' or d.get('tier', 'quick') == 'quick']
    S = scratch_root()
    R['scratch'] = S
    try:
        if os.path.exists(S):
            shutil.rmtree(S)
        os.makedirs(S)
        subprocess.run(['rsync', '-a', '--exclude', 'target', '--exclude', '.git', REPO + '/', S + '/'], check=True)
        with open(os.path.join(S, unit.TARGET), 'a') as f, open(os.path.join(unit.DIR, unit.HARNESS_FILE)) as h:
            f.write(h.read())
        cmd = ['cargo', 'kani', '-p', unit.PACKAGE] + list(getattr(unit, 'KANI_FLAGS', []))
        for h in hs:
            cmd += ['--harness', h]
        env = dict(os.environ, CARGO_NET_OFFLINE='true', CARGO_TARGET_DIR=os.path.join(S, 'target'))
        R['cmd'] = 'CARGO_NET_OFFLINE=true ' + ' '.join(cmd) + f'   (in a scratch copy of /repo with units/{name}/{unit.HARNESS_FILE} appended to {unit.TARGET})'
        to = int(os.environ.get('VERIF_KANI_TIMEOUT', '5400'))
        try:
            p = subprocess.run(cmd, cwd=S, env=env, capture_output=True, text=True, timeout=to)
            out = p.stdout + '\n' + p.stderr
        except subprocess.TimeoutExpired:
            R['status'], R['reason'] = 'undecided', f'cargo kani timeout after {to}s'
            return R
        R['raw_tail'] = '\n'.join(l for l in out.split('\n') if not re.match(r'^(Unwinding|Not unwinding|aborting)', l))[-6000:]
        cur = None
        for line in out.split('\n'):
            m = re.match(r'Checking harness (\S+?)\.\.\.', line)
            if m:
                cur = m.group(1).split('::')[-1]
                R['harnesses'][cur] = {'status': 'unknown', 'checks': 0, 'failed': 0, 'failed_checks': [], 'time_s': None, 'covers_sat': 0, 'covers': 0}
                continue
            if cur is None:
                continue
            H = R['harnesses'][cur]
            m = re.search(r'\*\* (\d+) of (\d+) failed', line)
            if m:
                H['failed'], H['checks'] = int(m.group(1)), int(m.group(2))
            m = re.search(r'\*\* (\d+) of (\d+) cover properties satisfied', line)
            if m:
                H['covers_sat'], H['covers'] = int(m.group(1)), int(m.group(2))
            if 'VERIFICATION:- SUCCESSFUL' in line:
                H['status'] = 'ok'
            elif 'VERIFICATION:- FAILED' in line:
                H['status'] = 'fail'
            m = re.search(r'Verification Time: ([0-9.]+)s', line)
            if m:
                H['time_s'] = float(m.group(1))
        # failed check descriptions
        for m in re.finditer(r'Check \d+: (\S+)\n\s+- Status: FAILURE\n\s+- Description: "([^"]*)"', out):
            for h, H in R['harnesses'].items():
                if ('::' + h + '.') in m.group(1) or m.group(1).split('.')[0].endswith(h):
                    H['failed_checks'].append(m.group(2))
        missing = [h for h in hs if h not in R['harnesses'] or R['harnesses'][h]['status'] == 'unknown']
        if missing:
            R['status'] = 'undecided'
            R['reason'] = 'no verdict for harness(es) ' + ', '.join(missing) + ' (build or tool error): ' + ' | '.join(l for l in out.split('\n') if l.startswith('error'))[:600]
            return R
        # vacuity: every harness with cover! statements must satisfy them all
        for h in hs:
            H = R['harnesses'][h]
            if H['covers'] and H['covers_sat'] < H['covers']:
                R['status'], R['reason'] = 'undecided', f'harness {h}: only {H["covers_sat"]} of {H["covers"]} cover properties satisfied (vacuous precondition?)'
                return R
        if any(R['harnesses'][h]['status'] == 'fail' for h in hs):
            R['status'] = 'fail'
            # counterexamples
            for h in hs:
                if R['harnesses'][h]['status'] == 'fail':
                    R['harnesses'][h]['playback'] = _playback(unit, S, env, h)
                    if hasattr(unit, 'replay'):
                        try:
                            R['harnesses'][h]['replay'] = unit.replay(h, R['harnesses'][h]['playback'], S, env)
                        except Exception as e:  # replay is best effort
                            R['harnesses'][h]['replay'] = {'confirmed': False, 'error': repr(e)}
        return R
    finally:
        R['wall_s'] = time.time() - t0
        if os.environ.get('VERIF_KEEP_SCRATCH') != '1':
            shutil.rmtree(S, ignore_errors=True)


def _playback(unit, S, env, h):
    cmd = ['cargo', 'kani', '-p', unit.PACKAGE, '-Z', 'concrete-playback', '--concrete-playback=print', '--harness', h] + list(getattr(unit, 'KANI_FLAGS', []))
    try:
        p = subprocess.run(cmd, cwd=S, env=env, capture_output=True, text=True, timeout=1200)
    except subprocess.TimeoutExpired:
        return {'values': None, 'test': None}
    out = p.stdout
    blocks = re.findall(r'```\n(.*?)```', out, re.S)
    parts = []
    for b in blocks:
        parts += [t for t in re.split(r'(?=/// Test generated for harness)', b) if t.strip()]
    # one test per satisfied cover and one per failed check: keep the one of a failed check
    fails = [t for t in parts if not re.search(r'/// Check for `cover`', t)]
    test = (fails or parts or [None])[0]
    vals = []
    if test:
        # each symbolic value: "// <decimal>\n vec![bytes]"
        for mm in re.finditer(r'//\s*(-?\d+|true|false|[^\n]*)\n\s*vec!\[([^\]]*)\]', test):
            bs = [int(x) for x in mm.group(2).split(',') if x.strip()]
            vals.append({'comment': mm.group(1).strip(), 'bytes': bs, 'le_uint': int.from_bytes(bytes(bs), 'little')})
    return {'values': vals, 'test': test}


def load_kani_registry(name):
    p = os.path.join(ROOT, 'units', name, 'kani_registry.json')
    if not os.path.exists(p):
        return None
    with open(p) as f:
        return json.load(f)


def register_kani(name):
    R = run_kani_unit(name, 'thorough')
    if R['status'] != 'ok':
        print(f'cannot register kani unit {name}: {R["status"]} {R["reason"]}')
        print(R.get('raw_tail', '')[-3000:])
        return 1
    reg = {'unit': name, 'harnesses': {h: 'pass' for h in R['harnesses']}, 'fingerprints': R['fingerprints'],
           'checks': {h: H['checks'] for h, H in R['harnesses'].items()}}
    with open(os.path.join(ROOT, 'units', name, 'kani_registry.json'), 'w') as f:
        json.dump(reg, f, indent=1, sort_keys=True)
        f.write('\n')
    print(f'registered kani unit {name}: {len(reg["harnesses"])} harnesses, wall {R["wall_s"]:.0f}s')
    return 0


def check_property_with_kani(pid, tier, seed, out=sys.stdout):
    """Verus units first (writes the evidence file), then the Kani units of the property; the evidence file is
    extended with the Kani results."""
    from .check import check_property
    kunits = kani_units_for(pid)
    if not kunits:
        return check_property(pid, tier, seed, out)
    rc = check_property(pid, tier, seed, out, quiet_summary=True)
    evp = os.path.join(ROOT, 'evidence', f'{pid}.json')
    ev = json.load(open(evp)) if os.path.exists(evp) else None
    violations, undecided = [], []
    kres = []
    for n in kunits:
        unit = load_kani_unit(n)
        reg = load_kani_registry(n)
        R = run_kani_unit(n, tier)
        kres.append(R)
        if R['status'] == 'undecided':
            undecided.append((n, R['reason']))
            continue
        if reg is None:
            undecided.append((n, 'kani unit not registered'))
            continue
        changed = R['fingerprints'] != reg['fingerprints']
        for h, H in R['harnesses'].items():
            if H['status'] == 'ok':
                continue
            if not changed:
                undecided.append((n, f'harness {h} failed but no function under contract changed since registration'))
                continue
            d = os.path.join(ROOT, 'replays', pid)
            os.makedirs(d, exist_ok=True)
            path = os.path.join(d, f'{n}-{h}.json')
            rp = H.get('replay') or {}
            doc = {'property': pid, 'unit': n, 'engine': 'kani', 'obligation': f'{n}:{h}', 'function': unit.HARNESSES[h].get('fn'),
                   'failed_checks': H['failed_checks'], 'counterexample': (H.get('playback') or {}).get('values'),
                   'playback_test': (H.get('playback') or {}).get('test'), 'replay_on_real_code': rp,
                   'failing_input': rp.get('input'), 'checker_cmd': R['cmd'], 'verifier_output': R.get('raw_tail', '')[-4000:],
                   'replay_cmd': f'./check --replay {path}'}
            with open(path, 'w') as f:
                json.dump(doc, f, indent=1)
            violations.append((n, h, path, bool(rp.get('confirmed'))))
    if ev is not None:
        cov = ev['coverage']
        kob = sum(H['checks'] for R in kres for H in R['harnesses'].values())
        kfail = sum(H['failed'] for R in kres for H in R['harnesses'].values())
        cov['obligations'] += kob
        cov['discharged'] += kob - kfail
        cov['kani'] = [{'unit': R['unit'], 'status': R['status'], 'reason': R['reason'], 'cmd': R['cmd'], 'wall_s': round(R['wall_s'], 1),
                        'harnesses': {h: {k: v for k, v in H.items() if k in ('status', 'checks', 'failed', 'time_s', 'covers', 'covers_sat', 'failed_checks')} for h, H in R['harnesses'].items()},
                        'complete': 'loop-free harnesses over the full input domain (kani::any with the type invariant as the only assumption): a complete proof, not a bounded stand-in'} for R in kres]
        cov['backend'] += ' + kani 0.68 / cbmc 6.11 (cadical)'
        cov['checker_cmd'] += ' ;  ' + ' ; '.join(R['cmd'] for R in kres if R['cmd'])
        ev['violations'] = ev.get('violations', 0) + len(violations)
        ev['wall_s'] = round(ev['wall_s'] + sum(R['wall_s'] for R in kres), 2)
        for n in kunits:
            ev['assumptions'] += [f'{n}: {a}' for a in getattr(load_kani_unit(n), 'ASSUMPTIONS', [])]
        with open(evp, 'w') as f:
            json.dump(ev, f, indent=1)
            f.write('\n')
    for n, h, path, confirmed in violations:
        print(f'VIOLATION property={pid} replay={path} obligation={n}:{h}' + ('' if confirmed else ' no-failing-input-found'), file=out)
    for n, r in undecided:
        print(f'UNDECIDED property={pid} unit={n} reason={r}', file=out)
    print(f'property={pid} kani_units={len(kunits)} harnesses={sum(len(R["harnesses"]) for R in kres)} violations={len(violations)} undecided={len(undecided)} wall={sum(R["wall_s"] for R in kres):.0f}s', file=out)
    if violations or rc == 1:
        return 1
    if undecided or rc == 2:
        return 2
    return 0
