"""Locate items in Rust source files of /repo and extract their text verbatim
(modulo: cfg evaluation under a fixed feature set, attribute and comment
dropping).  Anything that cannot be located is a LostAnchor (exit 2), never a
violation."""
import re
from .lexer import lex, code_tokens, match_close, fingerprint, render, Tok, OPEN, CLOSE, LexError


class LostAnchor(Exception):
    pass


class Unsupported(Exception):
    pass


DEFAULT_FEATURES = {
    'ipaddr', 'decimal', 'datetime', 'partial-eval', 'tpe', 'tolerant-ast',
    'extended-schema', 'std', 'default',
}

_ITEM_KW = ('fn', 'struct', 'enum', 'const', 'static', 'type', 'trait', 'mod', 'impl', 'union')
_PREFIX_KW = ('pub', 'const', 'async', 'unsafe', 'default', 'extern')


def _norm(s):
    return re.sub(r'\s+', '', s)


def _strip_generics_prefix(h):
    # h is whitespace-free, begins after 'impl'
    if h.startswith('<'):
        depth = 0
        for i, c in enumerate(h):
            if c == '<':
                depth += 1
            elif c == '>' and (i == 0 or h[i - 1] != '-'):
                depth -= 1
                if depth == 0:
                    return h[i + 1:]
    return h


class SourceFile:
    def __init__(self, path, text):
        self.path = path
        self.src = text
        self.toks = lex(text)
        self.code = code_tokens(self.toks)

    # -- item location -------------------------------------------------
    def _children(self, lo, hi):
        """Yield (kw, name_or_header, first_idx, last_idx, body_open_idx|None)
        for every item whose tokens lie in code[lo:hi] at nesting depth 0."""
        code = self.code
        i = lo
        while i < hi:
            t = code[i]
            if t.kind == 'punct' and t.text == '#':
                # attribute: skip `#[...]` / `#![...]`
                j = i + 1
                if j < hi and code[j].text == '!':
                    j += 1
                if j < hi and code[j].text == '[':
                    i = match_close(code, j) + 1
                    continue
            if t.kind == 'ident' and t.text in _ITEM_KW:
                # `const fn`, `pub const X`: 'const' followed by fn/unsafe is a prefix
                if t.text == 'const' and i + 1 < hi and code[i + 1].text in ('fn', 'unsafe', 'async', 'extern'):
                    i += 1
                    continue
                if t.text == 'unsafe' or t.text == 'extern':
                    i += 1
                    continue
                kw = t.text
                first = self._item_first(i, lo)
                # find end: first `{` or `;` at bracket depth 0 (ignoring <>)
                j = i + 1
                depth = 0
                body = None
                while j < hi:
                    u = code[j]
                    if u.kind == 'punct':
                        if u.text in ('(', '['):
                            depth += 1
                        elif u.text in (')', ']'):
                            depth -= 1
                        elif u.text == '{' and depth == 0:
                            body = j
                            break
                        elif u.text == ';' and depth == 0:
                            break
                    j += 1
                if j >= hi:
                    return
                if body is not None:
                    last = match_close(code, body)
                    # tuple struct `struct X(..);` handled by ';' branch; struct X {..} no trailing ;
                else:
                    last = j
                if kw == 'impl':
                    header = _norm(self.src[code[i + 1].start:code[body].start]) if body else ''
                    name = header
                elif kw in ('fn', 'struct', 'enum', 'const', 'static', 'type', 'trait', 'mod', 'union'):
                    name = code[i + 1].text if i + 1 < hi else ''
                yield kw, name, first, last, body
                i = last + 1
                continue
            if t.kind == 'punct' and t.text in OPEN:
                i = match_close(code, i) + 1
                continue
            i += 1

    def _item_first(self, kw_idx, lo):
        """Walk backwards over visibility/qualifiers and attributes."""
        code = self.code
        i = kw_idx
        while i - 1 >= lo:
            p = code[i - 1]
            if p.kind == 'ident' and p.text in _PREFIX_KW:
                i -= 1
                continue
            if p.kind == 'str' and i - 2 >= lo and code[i - 2].text == 'extern':
                i -= 1
                continue
            if p.kind == 'punct' and p.text == ')':
                # pub(crate) / pub(super) / pub(in path)
                k = i - 1
                d = 0
                while k >= lo:
                    if code[k].text == ')':
                        d += 1
                    elif code[k].text == '(':
                        d -= 1
                        if d == 0:
                            break
                    k -= 1
                if k - 1 >= lo and code[k - 1].text == 'pub':
                    i = k - 1
                    continue
                break
            if p.kind == 'punct' and p.text == ']':
                # attribute
                k = i - 1
                d = 0
                while k >= lo:
                    if code[k].text == ']':
                        d += 1
                    elif code[k].text == '[':
                        d -= 1
                        if d == 0:
                            break
                    k -= 1
                if k - 1 >= lo and code[k - 1].text == '#':
                    i = k - 1
                    continue
                break
            break
        return i

    def find(self, path, features=DEFAULT_FEATURES):
        """path: 'impl Authorizer > fn is_authorized_core_internal' etc.
        Returns (first_idx, last_idx) into self.code."""
        segs = [s.strip() for s in re.split(r'\s>\s', path)] if isinstance(path, str) else list(path)
        ranges = [(0, len(self.code))]
        found = None
        for si, seg in enumerate(segs):
            m = re.match(r'(\w+)\s*(.*)$', seg, re.S)
            if not m:
                raise LostAnchor(f'bad path segment {seg!r}')
            kw, want = m.group(1), m.group(2).strip()
            nth = 0
            mm = re.match(r'(.*)#(\d+)$', want)
            if mm:
                want, nth = mm.group(1).strip(), int(mm.group(2))
            hits = []
            for lo, hi in ranges:
                for k, name, first, last, body in self._children(lo, hi):
                    if k != kw:
                        continue
                    if kw == 'impl':
                        a = _strip_generics_prefix(name)
                        b = _strip_generics_prefix(_norm(want))
                        ok = a == b or a.split('where')[0] == b
                    else:
                        ok = name == want
                    if ok and not self._cfg_active(first, features):
                        ok = False
                    if ok:
                        hits.append((first, last, body))
            if not hits:
                raise LostAnchor(f'{self.path}: cannot find {seg!r} (of {path!r})')
            if si == len(segs) - 1:
                if len(hits) > 1 and not mm:
                    # several candidates (e.g. cfg'd duplicates handled above); ambiguous
                    raise LostAnchor(f'{self.path}: {seg!r} is ambiguous ({len(hits)} hits)')
                found = hits[nth] if mm else hits[0]
            else:
                ranges = [(b + 1, l) for (f, l, b) in hits if b is not None]
        return found[0], found[1]

    def _cfg_active(self, first, features):
        """Evaluate #[cfg(..)] attributes that start at code[first]."""
        code = self.code
        i = first
        while i < len(code) and code[i].text == '#':
            j = i + 1
            if code[j].text != '[':
                break
            k = match_close(code, j)
            if code[j + 1].text == 'cfg' and code[j + 2].text == '(':
                if not eval_cfg(code[j + 3:match_close(code, j + 2)], features):
                    return False
            i = k + 1
        return True

    def item_tokens(self, first, last):
        """All tokens (including comments) between code[first] and code[last]."""
        a, b = self.code[first].start, self.code[last].end
        return [t for t in self.toks if t.start >= a and t.end <= b]


# -- cfg evaluation ------------------------------------------------------
def eval_cfg(toks, features):
    """toks: code tokens inside cfg( ... )."""
    pos = [0]

    def pred():
        t = toks[pos[0]]
        if t.text in ('all', 'any', 'not') and pos[0] + 1 < len(toks) and toks[pos[0] + 1].text == '(':
            op = t.text
            pos[0] += 2
            vals = []
            while toks[pos[0]].text != ')':
                vals.append(pred())
                if toks[pos[0]].text == ',':
                    pos[0] += 1
            pos[0] += 1
            if op == 'all':
                return all(vals)
            if op == 'any':
                return any(vals)
            return not vals[0]
        if t.text == 'feature':
            assert toks[pos[0] + 1].text == '='
            name = toks[pos[0] + 2].text.strip('"')
            pos[0] += 3
            return name in features
        # test, kani, debug_assertions, target_arch=.., etc: off
        name = t.text
        pos[0] += 1
        if pos[0] < len(toks) and toks[pos[0]].text == '=':
            val = toks[pos[0] + 1].text.strip('"')
            pos[0] += 2
            if name == 'target_pointer_width':
                return val == '64'
            return False
        if name == 'debug_assertions':
            return False
        return False

    return pred()


def _skip_attr(code, i):
    """code[i] == '#'; returns (end_idx_exclusive, is_cfg, cfg_tokens)"""
    j = i + 1
    if code[j].text == '!':
        j += 1
    if code[j].text != '[':
        return None
    k = match_close(code, j)
    if code[j + 1].text == 'cfg' and code[j + 2].text == '(':
        return k + 1, True, code[j + 3:match_close(code, j + 2)]
    return k + 1, False, None


def _thing_end(code, i, hi):
    """Index (inclusive) of the last token of the statement / item / match arm /
    field / expression that starts at code[i]."""
    depth = 0
    j = i
    while j < hi:
        t = code[j]
        if t.kind == 'punct':
            if t.text in OPEN:
                depth += 1
            elif t.text in CLOSE:
                if depth == 0:
                    return j - 1  # end of enclosing container
                depth -= 1
                if depth == 0 and t.text == '}':
                    nxt = code[j + 1] if j + 1 < hi else None
                    if nxt is None:
                        return j
                    if nxt.text in (',', ';'):
                        return j + 1
                    if nxt.text in ('else', '.', '?', '=>') or (nxt.kind == 'punct' and nxt.text in ('+', '-', '*', '/', '&&', '||', '==', '!=', 'as')):
                        j += 1
                        continue
                    return j
            elif depth == 0 and t.text in (';', ','):
                return j
        j += 1
    return hi - 1


def strip_item(src, toks, features=DEFAULT_FEATURES, keep_attrs=()):
    """cfg-evaluate and drop attributes/comments from an item's token list.
    Returns (text, dropped) where dropped is a list of descriptions."""
    code = code_tokens(toks)
    keep = [True] * len(code)
    dropped = []
    i = 0
    n = len(code)
    while i < n:
        t = code[i]
        if t.kind == 'punct' and t.text == '#' and i + 1 < n and code[i + 1].text in ('[', '!'):
            r = _skip_attr(code, i)
            if r is None:
                i += 1
                continue
            end, is_cfg, cfgt = r
            text = ''.join(x.text for x in code[i:end])
            if is_cfg:
                active = eval_cfg(cfgt, features)
                for k in range(i, end):
                    keep[k] = False
                if not active:
                    # drop following attributes and the thing itself
                    j = end
                    while j < n and code[j].text == '#':
                        rr = _skip_attr(code, j)
                        if rr is None:
                            break
                        j = rr[0]
                    last = _thing_end(code, j, n)
                    for k in range(end, last + 1):
                        keep[k] = False
                    dropped.append('cfg-off: ' + text + ' ' + ' '.join(x.text for x in code[j:min(j + 6, last + 1)]) + ' ...')
                    i = last + 1
                    continue
                dropped.append('cfg-on: ' + text)
                i = end
                continue
            name = code[i + 2].text if code[i + 1].text == '[' else code[i + 3].text
            if name in keep_attrs:
                i = end
                continue
            for k in range(i, end):
                keep[k] = False
            dropped.append('attr: ' + text[:80])
            i = end
            continue
        i += 1
    kept = [c for c, k in zip(code, keep) if k]
    # render with original whitespace between kept tokens (collapse gaps that
    # held dropped tokens to their newlines)
    out = []
    prev_end = None
    for c in kept:
        if prev_end is not None:
            gap = src[prev_end:c.start]
            # remove any non-whitespace (dropped tokens / comments) from the gap
            ws = ''.join(ch for ch in gap if ch in ' \t\n') if not gap.isspace() and gap != '' else gap
            if not gap.isspace() and gap != '':
                nl = ws.count('\n')
                tail = ws.rsplit('\n', 1)[-1] if nl else ' '
                ws = ('\n' if nl else '') + tail
            out.append(ws)
        out.append(c.text)
        prev_end = c.end
    return ''.join(out), dropped
