"""Assemble a Verus input file for a unit from /repo's current working tree."""
import os
import re
import hashlib
from .lexer import lex, code_tokens, match_close, fingerprint, OPEN, CLOSE
from .extract import SourceFile, LostAnchor, Unsupported, strip_item, DEFAULT_FEATURES

REPO = os.environ.get('VERIF_REPO', '/repo')
ROOT = os.path.dirname(os.path.dirname(os.path.abspath(__file__)))


class Clause:
    """A labelled contract clause."""

    def __init__(self, label, text, props=None):
        self.label, self.text, self.props = label, text.strip().rstrip(','), props


def _clauses(xs):
    out = []
    for k, x in enumerate(xs or []):
        if isinstance(x, Clause):
            out.append(x)
        elif isinstance(x, tuple):
            out.append(Clause(x[0], x[1], x[2] if len(x) > 2 else None))
        else:
            out.append(Clause(str(k + 1), x))
    return out


class Loop:
    def __init__(self, invariant=(), decreases=None, name=None, proof_end=None, proof_start=None, iter_suffix='', invariant_except_break=(), ensures=(), proof_before=None):
        self.invariant = _clauses(invariant)
        self.invariant_except_break = _clauses(invariant_except_break)
        self.ensures = _clauses(ensures)
        self.decreases = decreases
        self.name = name
        self.proof_end = proof_end
        self.proof_start = proof_start
        self.iter_suffix = iter_suffix
        self.proof_before = proof_before


class Item:
    kind = 'item'

    def __init__(self, file, path, name=None, rewrites=(), props=None, wrap=None, features=None):
        self.file, self.path = file, path
        self.name = name or re.sub(r'.*\b(fn|struct|enum|const|type|static|trait)\s+', '', re.split(r'\s>\s', path)[-1].strip())
        self.rewrites = list(rewrites)
        self.props = props
        self.wrap = wrap
        self.features = features


class Fn(Item):
    """A function extracted verbatim and put under contract."""
    kind = 'fn'

    def __init__(self, file, path, name=None, requires=(), ensures=(), decreases=None, ret='r',
                 loops=None, proof_start=None, proof_tail=None, attrs=(), rewrites=(), sig_rewrites=(),
                 props=None, wrap=None, vis='pub', features=None, no_unwind=False, returns=None, hints=(), annotated_closures=True):
        super().__init__(file, path, name, rewrites, props, wrap, features)
        self.requires = _clauses(requires)
        self.ensures = _clauses(ensures)
        self.decreases = decreases
        self.ret = ret
        self.loops = loops or {}
        self.proof_start = proof_start
        self.proof_tail = proof_tail
        self.attrs = list(attrs)
        self.sig_rewrites = list(sig_rewrites)
        self.vis = vis
        self.no_unwind = no_unwind
        self.returns = returns
        self.annotated_closures = annotated_closures
        self.hints = list(hints)   # [(regex anchored on body text, proof text)]: inserted right after the unique match


class Type(Item):
    """A struct / enum / const extracted verbatim (attributes dropped)."""
    kind = 'type'

    def __init__(self, file, path, name=None, rewrites=(), pub_fields=True, attrs=(), props=None, wrap=None, features=None, suffix=''):
        super().__init__(file, path, name, rewrites, props, wrap, features)
        self.pub_fields = pub_fields
        self.attrs = list(attrs)
        self.suffix = suffix


class Raw:
    """Hand-written Verus text (spec functions, lemmas, prelude declarations)."""
    kind = 'raw'

    def __init__(self, text=None, file=None, tag='spec'):
        self.text, self.file, self.tag = text, file, tag


class Chunk:
    __slots__ = ('text', 'tag')

    def __init__(self, text, tag):
        self.text, self.tag = text, tag


_src_cache = {}


def source(relpath):
    p = os.path.join(REPO, relpath)
    st = os.stat(p)
    key = (p, st.st_mtime_ns, st.st_size)
    if key not in _src_cache:
        with open(p, encoding='utf-8') as f:
            _src_cache[key] = SourceFile(relpath, f.read())
    return _src_cache[key]


def apply_rewrites(text, rewrites, where):
    applied = []
    for rw in rewrites:
        if isinstance(rw, (ClosureRw, FnRw)):
            new, n = rw.apply(text)
            pat, repl, count = rw.describe(), rw.template(), rw.count
        else:
            pat, repl, count = rw[0], rw[1], rw[2] if len(rw) > 2 else 1
            flags = re.S | re.M
            new, n = re.subn(pat, repl, text, flags=flags)
        if count is not None and n != count:
            raise LostAnchor(f'{where}: rewrite {pat!r} matched {n} times, expected {count}')
        applied.append({'pattern': pat, 'replacement': repl if isinstance(repl, str) else '<fn>', 'count': n})
        text = new
    return text, applied


class FnRw:
    """A rewrite implemented by a python function text -> (text, n); `doc` states what it does (echoed into the evidence)."""

    def __init__(self, doc, func, count=1):
        self.doc, self.func, self.count = doc, func, count

    def describe(self):
        return self.doc

    def template(self):
        return '<mechanical rewrite: ' + self.doc + '>'

    def apply(self, text):
        return self.func(text)


def cmp_rw(lhs, rhs, fn_prefix, lhs_out=None, rhs_out=None):
    """Rule R11 for comparisons on opaque types: `LHS == RHS` -> `{fn_prefix}_eq(LHS, RHS)`, `!=` -> `_ne`; lhs/rhs are regexes
    (each must be a single group-free pattern); any number of occurrences."""
    def f(text):
        n = 0
        def rep(m):
            nonlocal n
            n += 1
            a = m.group('a') if lhs_out is None else lhs_out
            b = m.group('b') if rhs_out is None else rhs_out
            name = {'==': 'eq', '!=': 'ne', '<': 'lt', '<=': 'le', '>': 'gt', '>=': 'ge'}[m.group('op')]
            return f"{fn_prefix}_{name}({a}, {b})"
        text = re.sub(r'(?P<a>' + lhs + r')\s*(?P<op>==|!=|<=|>=|<|>)\s*(?P<b>' + rhs + r')', rep, text)
        return text, n
    return FnRw(f'map `{lhs} ==/!= {rhs}` to {fn_prefix}_eq/_ne (operator carried over one-to-one)', f, None)


class ClosureRw:
    """Rules R1-R3: rewrite a closure head `|PARAMS|` whose parameter text matches
    `params` (regex) into `|NEWPARAMS| -> (r: RET) [requires ..] ensures ENS { [let PAT = _vxp;] BODY }`.
    The body text is carried over unchanged."""

    def __init__(self, params, new_params, ret=None, ensures=None, requires=None, destructure=None, count=None, rname='r', follow=None):
        self.params, self.new_params, self.ret, self.ensures, self.requires = params, new_params, ret, ensures, requires
        self.destructure, self.count, self.rname = destructure, count, rname
        self.follow = follow   # optional regex the closure body must start with (selects one of several same-headed closures)

    def describe(self):
        return f'closure |{self.params}|'

    def template(self):
        t = f'|{self.new_params}|'
        if self.ret:
            t += f' -> ({self.rname}: {self.ret})'
        if self.requires:
            t += f' requires {self.requires}'
        if self.ensures:
            t += f' ensures {self.ensures}'
        t += ' { ' + (f'let {self.destructure} = _vxp; ' if self.destructure else '') + '<body verbatim> }'
        return t

    def apply(self, text):
        n = 0
        pos = 0
        out = []
        rx = re.compile(r'\|\s*' + self.params + r'\s*\|' + (f'(?=\\s*(?:{self.follow}))' if self.follow else ''), re.S)
        while True:
            m = rx.search(text, pos)
            if not m:
                break
            # closure body: balanced block or expression up to ',' / ')' / ';' at depth 0
            toks = code_tokens(lex(text[m.end():]))
            if not toks:
                break
            if toks[0].text == '{':
                e = match_close(toks, 0)
                body_end = m.end() + toks[e].end
                # method chains after a block body are not part of the closure
            else:
                depth = 0
                body_end = None
                for t in toks:
                    if t.kind == 'punct':
                        if t.text in OPEN:
                            depth += 1
                        elif t.text in CLOSE:
                            if depth == 0:
                                body_end = m.end() + t.start
                                break
                            depth -= 1
                        elif t.text in (',', ';') and depth == 0:
                            body_end = m.end() + t.start
                            break
                if body_end is None:
                    body_end = len(text)
            body = text[m.end():body_end]
            head = f'|{self.new_params}|'
            if self.ret:
                head += f' -> ({self.rname}: {self.ret})'
            if self.requires:
                head += f'\n                requires {self.requires}'
            if self.ensures:
                head += f'\n                ensures {self.ensures}'
            pre = f' let {self.destructure} = _vxp;' if self.destructure else ''
            out.append(text[pos:m.start()])
            out.append(head + ' {' + pre + ' ' + body.strip() + ' }')
            pos = body_end
            n += 1
        out.append(text[pos:])
        return ''.join(out), n


def _pub_fields(text):
    """Make every named field of a struct / enum-struct-variant `pub` (structs only)."""
    toks = code_tokens(lex(text))
    # only for `struct`: fields at depth 1 of the body braces
    kw = next((t.text for t in toks if t.kind == 'ident' and t.text in ('struct', 'enum')), None)
    if kw != 'struct':
        return text
    ins = []
    dels = []
    try:
        b = next(i for i, t in enumerate(toks) if t.text in ('{', '(') and t.kind == 'punct' and i > 1)
    except StopIteration:
        return text
    # skip generics: find first '{' or '(' at angle depth 0
    depth_angle = 0
    b = None
    for i, t in enumerate(toks):
        if t.text == '<':
            depth_angle += 1
        elif t.text == '>':
            depth_angle -= 1
        elif t.text in ('{', '(') and depth_angle <= 0 and i > 1:
            b = i
            break
        elif t.text == ';':
            return text
    if b is None:
        return text
    e = match_close(toks, b)
    i = b + 1
    start_of_field = True
    depth = 0
    while i < e:
        t = toks[i]
        if start_of_field and depth == 0:
            if t.text == 'pub':
                # `pub(crate)` / `pub(super)` / `pub(in ..)`: widen to plain `pub` (restricted visibility makes the datatype opaque to contracts)
                if i + 1 < e and toks[i + 1].text == '(':
                    c = match_close(toks, i + 1)
                    dels.append((toks[i + 1].start, toks[c].end))
            else:
                ins.append(t.start)
            start_of_field = False
        if t.kind == 'punct':
            if t.text in OPEN or t.text == '<':
                depth += 1
            elif t.text in CLOSE or (t.text == '>' and toks[i - 1].text != '-'):
                depth -= 1
            elif t.text == ',' and depth == 0:
                start_of_field = True
        i += 1
    edits = [(p, p, 'pub ') for p in ins] + [(a, b, '') for a, b in dels]
    for a, b, rep in sorted(edits, reverse=True):
        text = text[:a] + rep + text[b:]
    return text


def _split_fn(text, where):
    """Return (prefix_before_fn_kw, signature_text, body_inner_text).  signature
    runs from `fn` to just before the body `{`."""
    toks = code_tokens(lex(text))
    fi = next((i for i, t in enumerate(toks) if t.kind == 'ident' and t.text == 'fn'), None)
    if fi is None:
        raise LostAnchor(f'{where}: no fn keyword')
    depth = 0
    bi = None
    for i in range(fi, len(toks)):
        t = toks[i]
        if t.kind == 'punct':
            if t.text in ('(', '['):
                depth += 1
            elif t.text in (')', ']'):
                depth -= 1
            elif t.text == '{' and depth == 0:
                bi = i
                break
            elif t.text == ';' and depth == 0:
                raise Unsupported(f'{where}: function without body')
    be = match_close(toks, bi)
    prefix = text[:toks[fi].start]
    sig = text[toks[fi].start:toks[bi].start]
    body = text[toks[bi].end:toks[be].start]
    return prefix, sig, body


def _name_return(sig, ret, where):
    """`-> T` => `-> (ret: T)`"""
    toks = code_tokens(lex(sig))
    # params: first '(' at angle depth 0 after fn name
    pi = None
    ang = 0
    for i, t in enumerate(toks):
        if t.text == '<':
            ang += 1
        elif t.text == '>' and toks[i - 1].text != '-':
            ang -= 1
        elif t.text == '(' and ang == 0:
            pi = i
            break
    if pi is None:
        raise LostAnchor(f'{where}: no parameter list')
    pe = match_close(toks, pi)
    if pe + 1 < len(toks) and toks[pe + 1].text == '->':
        tstart = toks[pe + 2].start
        # type ends at 'where' at depth 0 or end of sig
        depth = 0
        tend = len(sig)
        for j in range(pe + 2, len(toks)):
            t = toks[j]
            if t.kind == 'punct' and (t.text in OPEN or t.text == '<'):
                depth += 1
            elif t.kind == 'punct' and (t.text in CLOSE or (t.text == '>' and toks[j - 1].text != '-')):
                depth -= 1
            elif t.kind == 'ident' and t.text == 'where' and depth == 0:
                tend = t.start
                break
        ty = sig[tstart:tend].rstrip()
        rest = sig[tend:]
        return sig[:tstart] + f'({ret}: {ty})' + ('\n    ' + rest if rest.strip() else ''), True
    return sig, False


def _loops(body):
    """Find loop heads in body text: returns list of dicts (kind, kw_start, in_end, brace_start)."""
    toks = code_tokens(lex(body))
    res = []
    for i, t in enumerate(toks):
        if t.kind == 'ident' and t.text in ('for', 'while', 'loop'):
            # `for<'a>` HRTB or `impl X for Y` cannot occur inside bodies except closures types; skip if next is '<'
            if t.text == 'for' and toks[i + 1].text == '<':
                continue
            if i > 0 and toks[i - 1].text == '.':
                continue
            depth = 0
            in_end = None
            bi = None
            for j in range(i + 1, len(toks)):
                u = toks[j]
                if u.kind == 'punct':
                    if u.text in ('(', '['):
                        depth += 1
                    elif u.text in (')', ']'):
                        depth -= 1
                    elif u.text == '{' and depth == 0:
                        bi = j
                        break
                if t.text == 'for' and u.kind == 'ident' and u.text == 'in' and depth == 0 and in_end is None:
                    in_end = u.end
            if bi is None:
                continue
            be = match_close(toks, bi)
            res.append({'kind': t.text, 'kw_start': t.start, 'in_end': in_end, 'brace_start': toks[bi].start,
                        'brace_end': toks[bi].end, 'close_start': toks[be].start})
    return res


def _tail_split(body):
    """Split body into (stmts_text, tail_expr_text) where tail is the final
    expression without trailing semicolon, or (body, None)."""
    toks = code_tokens(lex(body))
    if not toks:
        return body, None
    if toks[-1].text == ';':
        return body, None
    # walk backwards to find the start of the last statement at depth 0
    depth = 0
    start = 0
    i = len(toks) - 1
    while i >= 0:
        t = toks[i]
        if t.kind == 'punct':
            if t.text in CLOSE:
                depth += 1
            elif t.text in OPEN:
                depth -= 1
            elif t.text == ';' and depth == 0:
                start = toks[i].end
                break
        i -= 1
    if i >= 0 or start == 0:
        # there may be block statements without ';' before the tail (if/for/match). Be conservative:
        # scan forward from `start` over complete block statements.
        j = (i + 1) if i >= 0 else 0
        while j < len(toks):
            t = toks[j]
            if t.kind == 'ident' and t.text in ('for', 'while', 'loop', 'if', 'match', 'unsafe') or t.text == '{':
                # find the block(s) end
                k = j
                d = 0
                end = None
                while k < len(toks):
                    u = toks[k]
                    if u.kind == 'punct' and u.text in OPEN:
                        d += 1
                    elif u.kind == 'punct' and u.text in CLOSE:
                        d -= 1
                        if d == 0 and u.text == '}':
                            if k + 1 < len(toks) and toks[k + 1].text == 'else':
                                k += 1
                                continue
                            end = k
                            break
                    k += 1
                if end is None or end == len(toks) - 1:
                    break  # this block IS the tail
                nxt = toks[end + 1]
                if nxt.kind == 'punct' and nxt.text in ('.', '?'):
                    break  # expression continues: it's the tail
                j = end + 1
                start = toks[end].end
                continue
            break
    return body[:start], body[start:]


def unannotated_closures(text):
    """Closure heads `|params|` / `||` in expression-start position that are not followed by `->` (i.e. carry no
    Verus annotation).  Used to make tolerant closure rewrites safe: an unannotated closure is a lost anchor."""
    toks = code_tokens(lex(text))
    START = {'(', ',', '=', '{', ';', '=>', 'return', 'move', '[', ':'}
    out = []
    i = 0
    while i < len(toks):
        t = toks[i]
        prev = toks[i - 1].text if i > 0 else '('
        if t.kind == 'punct' and t.text in ('|', '||') and prev in START:
            if t.text == '||':
                j = i + 1
            else:
                j = i + 1
                depth = 0
                while j < len(toks) and not (toks[j].text == '|' and depth == 0):
                    if toks[j].text in ('(', '[', '<'):
                        depth += 1
                    elif toks[j].text in (')', ']', '>'):
                        depth -= 1
                    j += 1
                j += 1
            if j < len(toks) and toks[j].text != '->':
                out.append(text[t.start:toks[min(j + 3, len(toks) - 1)].end])
            i = j
            continue
        i += 1
    return out


def build_fn(item, text, chunks, tagbase):
    where = f'{item.file}:{item.path}'
    if getattr(item, 'annotated_closures', True):
        ua = unannotated_closures(text)
        if ua:
            raise LostAnchor(f'{where}: closure without annotation after rewrites: {ua[0]!r}')
    prefix, sig, body = _split_fn(text, where)
    sig, _ = apply_rewrites(sig, item.sig_rewrites, where + ' (signature)')
    if item.ret:
        sig, named = _name_return(sig, item.ret, where)
    head = ''
    for a in item.attrs:
        head += f'#[{a}]\n'
    vis = (item.vis + ' ') if item.vis else ''
    qual = ' '.join(w for w in re.findall(r'\b(const|async|unsafe)\b', prefix))
    chunks.append(Chunk(head + vis + (qual + ' ' if qual else '') + sig.rstrip() + '\n', tagbase + '|sig'))
    if item.requires:
        chunks.append(Chunk('    requires\n', tagbase + '|sig'))
        for c in item.requires:
            chunks.append(Chunk(f'        {c.text},\n', f'{tagbase}|requires|{c.label}'))
    if item.ensures:
        chunks.append(Chunk('    ensures\n', tagbase + '|sig'))
        for c in item.ensures:
            chunks.append(Chunk(f'        {c.text},\n', f'{tagbase}|ensures|{c.label}'))
    if item.returns:
        chunks.append(Chunk(f'    returns {item.returns},\n', f'{tagbase}|ensures|returns'))
    if item.decreases:
        chunks.append(Chunk(f'    decreases {item.decreases},\n', f'{tagbase}|decreases'))
    if item.no_unwind:
        chunks.append(Chunk('    no_unwind\n', tagbase + '|sig'))
    chunks.append(Chunk('{\n', tagbase + '|sig'))
    if item.proof_start:
        chunks.append(Chunk(item.proof_start.rstrip() + '\n', tagbase + '|proof|start'))
    # tail hints
    tail = None
    if item.proof_tail:
        body, tail = _tail_split(body)
        if tail is None:
            raise LostAnchor(f'{where}: no tail expression for proof_tail')
    # loops
    loops = _loops(body)
    ins = []  # (pos, [chunks])
    for ordinal, lp in sorted(item.loops.items()):
        if ordinal < 1 or ordinal > len(loops):
            raise LostAnchor(f'{where}: loop #{ordinal} not found ({len(loops)} loops)')
        L = loops[ordinal - 1]
        cs = []
        if lp.proof_before:
            ins.append((L['kw_start'], [Chunk(lp.proof_before.rstrip() + '\n        ', f'{tagbase}|proof|loop{ordinal}|before')]))
        if L['kind'] == 'for':
            nm = lp.name or f'it_{ordinal}'
            ins.append((L['in_end'], [Chunk(f' {nm}:', f'{tagbase}|body')]))
            if lp.iter_suffix:
                cs.append(Chunk(lp.iter_suffix, f'{tagbase}|body'))
        cs.append(Chunk('\n', f'{tagbase}|body'))
        if lp.invariant_except_break:
            cs.append(Chunk('            invariant_except_break\n', f'{tagbase}|body'))
            for c in lp.invariant_except_break:
                cs.append(Chunk(f'                {c.text},\n', f'{tagbase}|loop{ordinal}|invariant|{c.label}'))
        if lp.invariant:
            cs.append(Chunk('            invariant\n', f'{tagbase}|body'))
            for c in lp.invariant:
                cs.append(Chunk(f'                {c.text},\n', f'{tagbase}|loop{ordinal}|invariant|{c.label}'))
        if lp.ensures:
            cs.append(Chunk('            ensures\n', f'{tagbase}|body'))
            for c in lp.ensures:
                cs.append(Chunk(f'                {c.text},\n', f'{tagbase}|loop{ordinal}|ensures|{c.label}'))
        if lp.decreases:
            cs.append(Chunk(f'            decreases {lp.decreases},\n', f'{tagbase}|loop{ordinal}|decreases'))
        ins.append((L['brace_start'], cs))
        if lp.proof_start:
            ins.append((L['brace_end'], [Chunk('\n' + lp.proof_start.rstrip() + '\n', f'{tagbase}|proof|loop{ordinal}|start')]))
        if lp.proof_end:
            ins.append((L['close_start'], [Chunk('\n' + lp.proof_end.rstrip() + '\n', f'{tagbase}|proof|loop{ordinal}|end')]))
    for hi, (rx, ptxt) in enumerate(item.hints):
        ms = list(re.finditer(rx, body, flags=re.S | re.M))
        if len(ms) != 1:
            raise LostAnchor(f'{where}: hint anchor {rx!r} matched {len(ms)} times, expected 1')
        ins.append((ms[0].end(), [Chunk('\n' + ptxt.rstrip() + '\n', f'{tagbase}|proof|hint{hi + 1}')]))
    pos = 0
    for p, cs in sorted(ins, key=lambda x: x[0]):
        chunks.append(Chunk(body[pos:p], tagbase + '|body'))
        chunks.extend(cs)
        pos = p
    chunks.append(Chunk(body[pos:], tagbase + '|body'))
    if tail is not None:
        chunks.append(Chunk('\n    let __vx_r = {', tagbase + '|body'))
        chunks.append(Chunk(tail, tagbase + '|body'))
        chunks.append(Chunk('};\n', tagbase + '|body'))
        chunks.append(Chunk(item.proof_tail.rstrip() + '\n', tagbase + '|proof|tail'))
        chunks.append(Chunk('    __vx_r\n', tagbase + '|body'))
    chunks.append(Chunk('\n}\n', tagbase + '|sig'))


class Assembled:
    def __init__(self):
        self.chunks = []
        self.items = []      # dicts: name, file, path, fingerprint, lines, kind
        self.rewrites = []
        self.dropped = []
        self.text = ''
        self.line_tags = []  # per line (1-based index-1) tag

    def finish(self):
        text = ''.join(c.text for c in self.chunks)
        nlines = text.count('\n') + 1
        tags = [None] * nlines
        line = 0
        for c in self.chunks:
            parts = c.text.split('\n')
            for k, part in enumerate(parts):
                if k > 0:
                    line += 1
                if part.strip() != '' and _rank(c.tag) > _rank(tags[line]):
                    tags[line] = c.tag
        self.text = text
        self.line_tags = tags
        return self


def _rank(tag):
    if tag is None:
        return 0
    if '|ensures|' in tag or '|invariant|' in tag or '|requires|' in tag or '|decreases' in tag:
        return 3
    if '|proof|' in tag:
        return 2
    return 1


def assemble(unit):
    """unit: module-like object with attributes NAME, ITEMS (list of Item/Raw),
    optional HEADER, STDMODEL (list of file names in stdmodel/)."""
    A = Assembled()
    ch = A.chunks
    hdr = getattr(unit, 'HEADER', '')
    ch.append(Chunk('#![allow(unused, non_snake_case, non_camel_case_types, dead_code)]\n' + hdr + '\nuse vstd::prelude::*;\nuse vstd::std_specs::iter::IteratorSpec;\nuse std::sync::Arc;\n' + getattr(unit, 'USES', '') + '\nverus! {\n/// vstd\'s spec set (cedar has its own `Set` type)\npub type SSet<A> = vstd::set::Set<A>;\n', 'hdr'))
    for f in getattr(unit, 'STDMODEL', []):
        with open(os.path.join(ROOT, 'stdmodel', f)) as fh:
            ch.append(Chunk(f'// ---- stdmodel/{f} ----\n' + fh.read() + '\n', f'stdmodel|{f}'))
    open_wrap = None
    for it in unit.ITEMS:
        if it.kind == 'raw':
            if it.file:
                with open(os.path.join(unit.DIR, it.file)) as fh:
                    text = fh.read()
                tag = f'{it.tag}|{it.file}'
            else:
                text = it.text
                tag = it.tag
            if open_wrap is not None:
                ch.append(Chunk('}\n', 'wrap'))
                open_wrap = None
            ch.append(Chunk(text.rstrip() + '\n', tag))
            continue
        sf = source(it.file)
        feats = it.features or getattr(unit, 'FEATURES', DEFAULT_FEATURES)
        first, last = sf.find(it.path, feats)
        toks = sf.item_tokens(first, last)
        fp = fingerprint(toks)
        text, dropped = strip_item(sf.src, toks, feats)
        where = f'{it.file}:{it.path}'
        text, applied = apply_rewrites(text, it.rewrites, where)
        A.rewrites.extend({'item': it.name, **a} for a in applied)
        A.dropped.extend(f'{it.name}: {d}' for d in dropped)
        line0 = sf.src.count('\n', 0, sf.code[first].start) + 1
        line1 = sf.src.count('\n', 0, sf.code[last].end) + 1
        wrap = it.wrap
        if wrap != open_wrap:
            if open_wrap is not None:
                ch.append(Chunk('}\n', 'wrap'))
            if wrap is not None:
                ch.append(Chunk(wrap + ' {\n', 'wrap'))
            open_wrap = wrap
        tagbase = f'item|{it.name}'
        A.items.append({'name': it.name, 'kind': it.kind, 'file': it.file, 'path': it.path, 'fingerprint': fp,
                        'lines': [line0, line1], 'props': it.props, 'assumed_here': bool(getattr(it, 'assumed_here', False))})
        if it.kind == 'fn':
            n0 = len(ch)
            build_fn(it, text, ch, tagbase)
            # the name under which the function is emitted (signature rewrites may rename it)
            m = re.search(r'\bfn\s+(\w+)', ''.join(c.text for c in ch[n0:]))
            if m:
                A.items[-1]['emitted'] = m.group(1)
        else:
            # type / const
            t = re.sub(r'^\s*pub(\([^)]*\))?\s+', '', text.lstrip())
            if it.pub_fields:
                t = _pub_fields(t)
            head = ''.join(f'#[{a}]\n' for a in it.attrs)
            ch.append(Chunk(head + 'pub ' + t.rstrip() + '\n' + (it.suffix + '\n' if it.suffix else ''), tagbase + '|type'))
    if open_wrap is not None:
        ch.append(Chunk('}\n', 'wrap'))
    ch.append(Chunk('\n} // verus!\nfn main() {}\n', 'hdr'))
    return A.finish()
